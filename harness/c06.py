"""C06 — managed object identity is pinned to apiConfig.

proof:   lean/Koreo/Props/C06.lean (`forced_wins` for any value, preservation by strip / owner refs /
         prepareForApi, `create_payload_identity`, `patch_payload_identity`, `create_addressed_to_identity`,
         `patch_addressed_to_loaded` — for every template, overlay-step list, create overlay, owner, state)
tie:     adversarial programs: every subset of the layers {inline resource | ResourceTemplate (through the real
         cache), two inline overlays, an overlayRef ValueFunction, create.overlay} sets / replaces apiVersion, kind,
         metadata (by a string, int, list, null, a computed map), metadata.name, metadata.namespace — literally or
         through inputs; each program reconciled against an empty cluster (POST) and a drifted live object
         (PATCH / DELETE); method, endpoint, URL name, namespace argument and body identity compared with the model
oracle:  every POST/PATCH body's identity and every request's address against what apiConfig evaluates to
"""
from __future__ import annotations

import copy
import itertools
import json

from common import Check, LeanDriver, ddmin, from_wire, rng
import gen_rf678 as g

PREFIX = "C6"
KINDS = list(g.EDITS)


def live_object(prog: dict, shape: int) -> dict:
    kind, _ = g.kind_for(PREFIX, prog["namespaced"])
    md = {"name": prog.get("name", g.NAME), "uid": "uid-live", "resourceVersion": "3"}
    ns = prog.get("apiNs", g.NS if prog["namespaced"] else None)
    if prog["namespaced"]:
        md["namespace"] = ns
    if shape % 2 == 0:
        md["ownerReferences"] = [copy.deepcopy(g.OWNER_REF)]
    return {"apiVersion": g.API_VERSION, "kind": kind, "metadata": md, "spec": {"liveOnly": shape}}


def grid(full: bool):
    """every subset of the five layers x every replacement kind (+ rotating / all other dimensions)"""
    i = 0
    for mask in range(32):
        layers = [l for b, l in enumerate(g.LAYERS) if mask >> b & 1]
        for kind in KINDS:
            dims = list(itertools.product((True, False), ("inline", "ref"), (False, True))) if full else \
                [((i % 2 == 0), ("inline", "ref")[(i // 2) % 2], (i // 4) % 2 == 1)]
            for namespaced, form, via in dims:
                prog = {"prefix": PREFIX, "namespaced": namespaced, "tmplForm": form,
                        "edits": [{"layer": l, "kind": kind, "via": via} for l in layers],
                        "benign": ["ov0"] if i % 3 == 0 else [], "flags": {"owned": i % 5 != 0}}
                yield prog
            i += 1


def random_program(r) -> dict:
    namespaced = r.random() < 0.7
    prog = {"prefix": PREFIX, "namespaced": namespaced, "tmplForm": r.choice(("inline", "inline", "ref")),
            "edits": [], "benign": [l for l in g.LAYERS[1:] if r.random() < 0.3],
            "flags": {"owned": r.random() < 0.7, "policy": r.choice(("patch", "patch", "patch", "recreate", "never"))},
            "nameVia": r.random() < 0.3, "nsVia": r.random() < 0.3}
    if r.random() < 0.2:
        prog["name"] = r.choice(("other", "a-b", "x1"))
    if namespaced and r.random() < 0.2:
        prog["apiNs"] = r.choice(("team-a", "default", "kube-system"))
    if not namespaced and r.random() < 0.25:
        prog["apiNs"] = "odd-ns"            # a namespace given for a cluster-scoped kind
    if r.random() < 0.15:
        prog["ownerNs"] = "elsewhere"
    for layer in g.LAYERS:
        if r.random() < 0.55:
            for _ in range(r.choice((1, 1, 2, 3))):
                prog["edits"].append({"layer": layer, "kind": r.choice(KINDS), "via": r.random() < 0.4})
    sk = [l for l in ("ov0", "ov1", "ovRef") if r.random() < 0.15]
    if sk:
        prog["skip"] = sk
    ns = [l for l in ("ov0", "ov1", "ovRef") if l not in sk and r.random() < 0.1]
    if ns:
        prog["noskip"] = ns
    return prog


def expected_identity(b: dict, prog: dict) -> dict:
    return {"apiVersion": g.API_VERSION, "kind": b["kind"], "name": b["name"], "namespace": b["ns"]}


def oracle(prog: dict, b: dict) -> str | None:
    """C06's clauses on the request log of one run (no model involved)"""
    obs = b["obs"]
    if not obs["prepared"]:
        return None
    want = expected_identity(b, prog)
    for e in g.log_view(obs["cluster"]):
        m = e["method"]
        if e["plural"] != b["plural"]:
            return f"{m} addressed to endpoint {e['plural']!r}, apiConfig's is {b['plural']!r}"
        # namespaced kinds: exactly apiConfig's namespace; cluster-scoped kinds: none (koreo hands the load
        # whatever namespace apiConfig gave, which kr8s ignores for such kinds) — never a *different* one
        ok_ns = (b["ns"],) if prog["namespaced"] else ((None, b["ns"]) if m == "GET" else (None,))
        if e["nsArg"] not in ok_ns:
            return f"{m} namespace argument {e['nsArg']!r}, apiConfig evaluates to {b['ns']!r}"
        if e["name"] != b["name"]:
            return f"{m} addressed to name {e['name']!r}, apiConfig evaluates to {b['name']!r}"
        if m in ("POST", "PATCH"):
            got = g.identity_of(e["body"])
            for k in ("apiVersion", "kind", "name"):
                if got[k] != want[k] or type(got[k]) is not type(want[k]):
                    return f"{m} body has {k}={got[k]!r}, apiConfig evaluates to {want[k]!r}"
            if b["ns"] is not None and got["namespace"] != b["ns"]:
                return f"{m} body has metadata.namespace={got['namespace']!r}, apiConfig evaluates to {b['ns']!r}"
    return None


def request_obs(req):
    if req is None or req == "multiple":
        return req
    out = {"method": req["method"], "plural": req["plural"], "name": req["name"], "nsArg": req["nsArg"]}
    if req["method"] in ("POST", "PATCH"):
        out["identity"] = g.identity_of(req["body"])
    return out


def model_request(ans: dict, b: dict, prog: dict):
    """the model's request for this run (choosing by the real comparator's verdict when one is needed)"""
    run = ans["ifMatch"]
    exp = ans.get("expected")
    if prog.get("stored") is not None and exp is not None and run["action"] not in ("noApiAtAll",):
        # the comparator is an input of the model; where the real one raises (C05's subject) there is
        # nothing to compare
        verdict = g.comparator_says(from_wire(exp), prog["stored"], prog["namespaced"], b["ns"])
        if verdict is None:
            return "skip"
        run = ans["ifMatch"] if verdict else ans["ifDrift"]
    q = run["request"]
    if q is None:
        return None
    out = {"method": q["method"], "plural": q["plural"],
           "name": from_wire(q["name"]) if q["method"] != "POST" else g.get_path(from_wire(q["body"]), "metadata", "name"),
           "nsArg": from_wire(q["nsArg"])}
    if q["method"] in ("POST", "PATCH"):
        out["identity"] = g.identity_of(from_wire(q["body"]))
    return out


def shrink(prog: dict, bad_of) -> dict:
    """fewest edits (then no optional dimension) on which the oracle still complains"""
    def with_edits(edits, base=prog):
        p = copy.deepcopy(base)
        p["edits"] = list(edits)
        return p

    def fails(edits):
        return bad_of(with_edits(edits)) is not None

    small = with_edits(ddmin(prog["edits"], fails) if prog["edits"] else [])
    for k in ("skip", "noskip", "benign", "nameVia", "nsVia", "ownerNs"):
        if k in small:
            trial = copy.deepcopy(small)
            del trial[k]
            try:
                if bad_of(trial) is not None:
                    small = trial
            except Exception:
                pass
    return small


def run(tier: str) -> int:
    ck = Check("C06", tier)
    ck.trusted = [
        "Lean 4.33.0 kernel; axioms of every theorem ⊆ {propext, Classical.choice, Quot.sound}",
        "models lean/Koreo/Identity.lean (`_deep_overlay`, `_forced_overlay`, kr8s addressing) and lean/Koreo/ResourceFn.lean "
        "(materialise / createPayload / patchPayload / reconcile) hand-transcribed; overlay steps are arbitrary functions "
        "in the theorems and `_overlay_applier` on evaluated leaves in the correspondence",
        "kr8s 0.20.7 APIObject: constructor writes the namespace argument into raw.metadata.namespace, `raw` re-imposes "
        "kind/apiVersion, POST to endpoint, PATCH/DELETE to endpoint/name (modelled, validated by this differential)",
        "harness/cluster.py (in-memory API, request log), celpy (expressions only feed values into layers)",
    ]
    ck.assumptions = [
        "apiConfig evaluates to a non-empty name and, for namespaced kinds, a non-empty namespace (otherwise PermFail "
        "before any API access)",
        "the server answers a GET for (namespace, name) with the object of that name",
        "cluster-scoped kinds without a namespace in apiConfig: metadata.namespace of the body is not constrained "
        "(DESIGN.md section 7)",
    ]
    ck.prove(extractors=["RfDefaults"])
    if tier == "thorough":
        ck.leanchecker()

    r = rng("c06")
    progs = list(grid(full=(tier != "quick")))
    n_random = 300 if tier == "quick" else 5000
    progs += [random_program(r) for _ in range(n_random)]
    work = []
    for i, p in enumerate(progs):
        for situation in ("absent", "drifted"):
            q = copy.deepcopy(p)
            q["stored"] = None if situation == "absent" else live_object(q, i)
            work.append(q)
    built = [g.run_program(p) for p in work]
    drv = LeanDriver("C06")
    try:
        answers = drv.ask([b["model"] for b in built])
    except Exception as e:
        answers = [None] * len(built)
        ck.notes.append(f"model driver unavailable: {e}")
        ck.build_ok = False

    def bad_of(p):
        return oracle(p, g.run_program(p))

    for prog, b, ans in zip(work, built, answers):
        ck.evaluated()
        obs = b["obs"]
        req = g.impl_request(obs) if obs["prepared"] else None
        act = g.action_of(obs["cluster"]) if obs["prepared"] else "not-prepared"
        ck.count(f"action:{act}")
        ck.count(f"layers-edited:{len({e['layer'] for e in prog['edits']})}")
        for e in prog["edits"]:
            ck.count(f"edit:{e['kind']}")
            ck.count(f"layer:{e['layer']}")
        ck.count("scope:" + ("namespaced" if prog["namespaced"] else "cluster"))
        ck.count(f"template:{prog['tmplForm']}")
        if obs["raised"]:
            ck.count("raised")
        if prog["edits"] and act in ("create", "patch"):
            ck.nontriv(g.dumps([prog["edits"], prog["namespaced"], prog["tmplForm"], act]))
        case = {"prog": prog}
        if len(ck.cov["samples"]) < 4 and len(prog["edits"]) >= 2 and act in ("create", "patch"):
            ck.sample({"prog": prog, "spec": b["spec"], "templates": b["templates"], "valueFunctions": b["vfs"],
                       "inputs": b["inputs"], "request": request_obs(req)})
        bad = oracle(prog, b)
        if bad:
            if len(ck.violations) < 5:
                small = shrink(prog, bad_of)
                ck.violate({"prog": small}, bad_of(small) or bad)
            elif len(ck.violations) < 40:
                ck.violate({"prog": prog}, bad)
            else:
                ck.count("further-violations")
        if ans is None or "error" in ans:
            if ans is not None:
                ck.disagree(case, ans, None, "driver-error")
            continue
        if not obs["prepared"]:
            ck.disagree(case, "prepared", obs["prepare"], "program does not prepare")
            continue
        want = model_request(ans, b, prog)
        if want == "skip":
            ck.count("comparator-raised")
            continue
        mine = request_obs(req)
        if obs["raised"] and want is None:
            continue
        if want != mine or obs["raised"]:
            ck.disagree(case, want, {"request": mine, "raised": obs["raised"]},
                        "request: method/endpoint/name/namespace-argument/body-identity")
    ck.cov["programs"] = len(work)
    ck.cov["grid"] = {"layer_subsets": 32, "replacement_kinds": len(KINDS), "full": tier != "quick"}
    return ck.finish(
        rule="adversarial ResourceFunctions: all 32 subsets of the layers {template, overlay, overlay, overlayRef "
             "function, create.overlay} x 9 replacement kinds (apiVersion/kind strings or non-strings, metadata.name, "
             "metadata.namespace, metadata := string | int | list | null | computed map); quick rotates scope / template "
             "form / literal-vs-input over the grid, thorough takes all 8 combinations; plus random programs (several "
             "edits per layer, skipIf, apiConfig through inputs, other names/namespaces, policies); each against an "
             "empty cluster and a drifted live object; non-trivial = at least one adversarial edit and a POST or PATCH "
             "was sent; distinct by edits+scope+template form+action",
    )


def replay(path: str) -> int:
    data = json.load(open(path))
    rc = 0
    for v in data.get("violations", []):
        prog = v["case"]["prog"]
        b = g.run_program(prog)
        bad = oracle(prog, b)
        print("replay:", json.dumps(prog), "->", json.dumps([request_obs(g.impl_request(b["obs"]))], default=str), "::", bad)
        rc = rc or (1 if bad else 0)
    for d in data.get("no_longer_checks", []):
        if d.get("kind") == "correspondence" and isinstance(d.get("case"), dict) and "prog" in d["case"]:
            prog = d["case"]["prog"]
            b = g.run_program(prog)
            ans = LeanDriver("C06").ask([b["model"]])[0]
            want = model_request(ans, b, prog)
            mine = request_obs(g.impl_request(b["obs"]))
            agree = want == "skip" or (b["obs"]["raised"] and want is None) or (want == mine and not b["obs"]["raised"])
            print("replay (model/implementation):", json.dumps(prog), "impl ->", json.dumps(mine, default=str),
                  b["obs"]["raised"], "model ->", json.dumps(want, default=str), "::", "agree" if agree else "DISAGREE")
            rc = rc or (0 if agree else 1)
        elif d.get("kind") in ("lean-build", "audit"):
            print("replay: the proof side did not check:", str(d)[:600])
            rc = 1
    return rc
