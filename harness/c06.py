"""C06 — managed object identity is pinned to apiConfig.

proof:   lean/Koreo/Props/C06.lean (`forced_wins` for any value, preservation by strip / owner refs /
         prepareForApi, `create_payload_identity`, `patch_payload_identity`, `create_addressed_to_identity`,
         `patch_addressed_to_loaded` — for every template, overlay-step list, create overlay, owner, state)
tie:     adversarial programs: every subset of the layers {inline resource | ResourceTemplate (through the real
         cache), two inline overlays, an overlayRef ValueFunction, create.overlay} sets / replaces apiVersion, kind,
         metadata (by a string, int, list, null, a computed map), metadata.name, metadata.namespace — literally or
         through inputs; each program reconciled against an empty cluster (POST) and a drifted live object
         (PATCH / DELETE); method, endpoint, URL name, namespace argument and body identity compared with the model
         + sessions (several functions of one kind with different apiVersion in one process) and concurrent groups
         (2-3 reconciles of one kind in flight together, harness/vloop.py, every call suspends)
oracle:  every POST/PATCH body's identity, every request's address and API version, and the reported resource id
         against what the function's own apiConfig evaluates to
"""
from __future__ import annotations

import copy
import itertools
import json
import os

from common import Check, LeanDriver, VERIF, ddmin, from_wire, rng
import gen_rf678 as g

PREFIX = "C6"
KINDS = list(g.EDITS)


def live_object(prog: dict, shape: int) -> dict:
    kind, _ = g.kind_for(prog.get("prefix", PREFIX), prog["namespaced"])
    md = {"name": g.id_text(prog.get("name", g.NAME)), "uid": "uid-live", "resourceVersion": "3"}
    ns = prog.get("apiNs", g.NS if prog["namespaced"] else None)
    ns = None if ns is None else g.id_text(ns)
    if prog["namespaced"]:
        md["namespace"] = ns
    if shape % 2 == 0:
        md["ownerReferences"] = [copy.deepcopy(g.OWNER_REF)]
    return {"apiVersion": prog.get("apiVersion", g.API_VERSION), "kind": kind, "metadata": md,
            "spec": {"liveOnly": shape}}


def grid(full: bool):
    """every subset of the five layers x every replacement kind (+ rotating / all other dimensions)"""
    i = 0
    for mask in range(32):
        layers = [l for b, l in enumerate(g.LAYERS) if mask >> b & 1]
        for kind in KINDS:
            dims = list(itertools.product((True, False), ("inline", "ref"), (False, True))) if full else \
                [((i % 2 == 0), ("inline", "ref")[(i // 2) % 2], (i // 4) % 2 == 1)]
            for namespaced, form, via in dims:
                prog = {"prefix": PREFIX, "namespaced": namespaced, "tmplForm": form,
                        "edits": [{"layer": l, "kind": kind, "via": via} for l in layers],
                        "benign": ["ov0"] if i % 3 == 0 else [], "flags": {"owned": i % 5 != 0}}
                yield prog
            i += 1


def template_combos():
    """a ResourceTemplate (and an inline resource) whose apiVersion / kind agree or disagree with apiConfig in
    each combination, with and without overlays — every one on the create and the update path"""
    for form in ("ref", "inline"):
        for ver_differs, kind_differs in itertools.product((False, True), repeat=2):
            for overlays in ([], ["ov0"], ["ov0", "ovRef"]):
                for namespaced in (True, False):
                    edits = ([{"layer": "template", "kind": "ver", "via": False}] if ver_differs else []) + \
                            ([{"layer": "template", "kind": "kindOnly", "via": False}] if kind_differs else [])
                    yield {"prefix": PREFIX, "namespaced": namespaced, "tmplForm": form, "edits": edits,
                           "benign": list(overlays), "flags": {"owned": True}}


def empty_namespace_grid():
    """namespaced kinds whose apiConfig.namespace evaluates to "" / null / a missing input, while a layer names a
    namespace of its own"""
    for empty in ("", None, "missing"):
        for layer in g.LAYERS:
            for kind in ("namespace", "metaMap"):
                yield {"prefix": PREFIX, "namespaced": True, "tmplForm": "inline", "nsEmpty": empty,
                       "edits": [{"layer": layer, "kind": kind, "via": False}], "benign": [], "flags": {"owned": True}}


def random_program(r) -> dict:
    namespaced = r.random() < 0.7
    prog = {"prefix": PREFIX, "namespaced": namespaced, "tmplForm": r.choice(("inline", "inline", "ref")),
            "edits": [], "benign": [l for l in g.LAYERS[1:] if r.random() < 0.3],
            "flags": {"owned": r.random() < 0.7, "policy": r.choice(("patch", "patch", "patch", "recreate", "never"))},
            "nameVia": r.random() < 0.3, "nsVia": r.random() < 0.3}
    if r.random() < 0.2:
        prog["name"] = r.choice(("other", "a-b", "x1"))
    elif r.random() < 0.2:
        # names / namespaces that are kept exactly as evaluated: blanks and newlines stay, numbers are written out
        prog["name"] = r.choice(ODD_NAMES)
        prog["nameVia"] = r.choice((True, "locals")) if not isinstance(prog["name"], str) or r.random() < 0.7 else False
        if namespaced and r.random() < 0.5:
            prog["apiNs"] = r.choice(ODD_NAMESPACES)
            prog["nsVia"] = r.choice((True, "locals"))
    if namespaced and r.random() < 0.2:
        prog["apiNs"] = r.choice(("team-a", "default", "kube-system"))
    if not namespaced and r.random() < 0.25:
        prog["apiNs"] = "odd-ns"            # a namespace given for a cluster-scoped kind
    if r.random() < 0.15:
        prog["ownerNs"] = "elsewhere"
    if namespaced and r.random() < 0.12:
        prog.pop("apiNs", None)
        prog["nsEmpty"] = r.choice(("", None, "missing"))
    for layer in g.LAYERS:
        if r.random() < 0.55:
            for _ in range(r.choice((1, 1, 2, 3))):
                prog["edits"].append({"layer": layer, "kind": r.choice(KINDS), "via": r.random() < 0.4})
    sk = [l for l in ("ov0", "ov1", "ovRef") if r.random() < 0.15]
    if sk:
        prog["skip"] = sk
    ns = [l for l in ("ov0", "ov1", "ovRef") if l not in sk and r.random() < 0.1]
    if ns:
        prog["noskip"] = ns
    return prog


def expected_identity(b: dict, prog: dict) -> dict:
    return {"apiVersion": b["apiVersion"], "kind": b["kind"], "name": b["name"], "namespace": b["ns"]}


def oracle(prog: dict, b: dict) -> str | None:
    """C06's clauses on the request log of one run (no model involved)"""
    obs = b["obs"]
    if not obs["prepared"]:
        return None
    return oracle_on(prog, b, g.log_view(obs["cluster"]), obs.get("resource_id"),
                     None if obs["raised"] else g.outcome_view(obs))


def oracle_on(prog: dict, b: dict, entries: list, resource_id, outcome=None) -> str | None:
    """the clauses on the requests that belong to one function's reconcile, and on the resource id it reports"""
    want = expected_identity(b, prog)
    if prog["namespaced"] and b["ns"] is None:
        # apiConfig.namespace evaluates to nothing for a namespaced kind: PermFail, and nothing may reach the API
        if entries:
            e = entries[-1]
            where = g.identity_of(e["body"])["namespace"] if e["method"] in ("POST", "PATCH") else e["nsArg"]
            return (f"apiConfig.namespace evaluates to nothing for a namespaced kind, yet {e['method']} was sent "
                    f"(namespace argument {e['nsArg']!r}, body namespace {where!r})")
        if outcome is not None and outcome.get("c") != "permFail":
            return f"apiConfig.namespace evaluates to nothing for a namespaced kind but the outcome is {outcome.get('c')}"
        return None
    if isinstance(resource_id, dict):
        for k, v in (("apiVersion", b["apiVersion"]), ("kind", b["kind"]), ("plural", b["plural"]), ("name", b["name"])):
            if resource_id.get(k) != v:
                return f"reported resource id has {k}={resource_id.get(k)!r}, apiConfig evaluates to {v!r}"
        if b["ns"] is not None and resource_id.get("namespace") != b["ns"]:
            return f"reported resource id has namespace={resource_id.get('namespace')!r}, apiConfig evaluates to {b['ns']!r}"
    for e in entries:
        m = e["method"]
        if e["version"] != b["apiVersion"]:
            return f"{m} sent to API version {e['version']!r}, apiConfig says {b['apiVersion']!r}"
        if e["plural"] != b["plural"]:
            return f"{m} addressed to endpoint {e['plural']!r}, apiConfig's is {b['plural']!r}"
        # namespaced kinds: exactly apiConfig's namespace; cluster-scoped kinds: none (koreo hands the load
        # whatever namespace apiConfig gave, which kr8s ignores for such kinds) — never a *different* one
        ok_ns = (b["ns"],) if prog["namespaced"] else ((None, b["ns"]) if m == "GET" else (None,))
        if e["nsArg"] not in ok_ns:
            return f"{m} namespace argument {e['nsArg']!r}, apiConfig evaluates to {b['ns']!r}"
        if e["name"] != b["name"]:
            return f"{m} addressed to name {e['name']!r}, apiConfig evaluates to {b['name']!r}"
        if m in ("POST", "PATCH"):
            got = g.identity_of(e["body"])
            for k in ("apiVersion", "kind", "name"):
                if got[k] != want[k] or type(got[k]) is not type(want[k]):
                    return f"{m} body has {k}={got[k]!r}, apiConfig evaluates to {want[k]!r}"
            if b["ns"] is not None and got["namespace"] != b["ns"]:
                return f"{m} body has metadata.namespace={got['namespace']!r}, apiConfig evaluates to {b['ns']!r}"
    return None


def request_obs(req):
    if req is None or req == "multiple":
        return req
    out = {"method": req["method"], "plural": req["plural"], "name": req["name"], "nsArg": req["nsArg"],
           "version": req["version"]}
    if req["method"] in ("POST", "PATCH"):
        out["identity"] = g.identity_of(req["body"])
    return out


def model_request(ans: dict, b: dict, prog: dict):
    """the model's request for this run (choosing by the real comparator's verdict when one is needed)"""
    run = ans["ifMatch"]
    exp = ans.get("expected")
    if prog.get("stored") is not None and exp is not None and run["action"] not in ("noApiAtAll",):
        # the comparator is an input of the model; where the real one raises (C05's subject) there is
        # nothing to compare
        verdict = g.comparator_says(from_wire(exp), prog["stored"], prog["namespaced"], b["ns"])
        if verdict is None:
            return "skip"
        run = ans["ifMatch"] if verdict else ans["ifDrift"]
    q = run["request"]
    if q is None:
        return None
    out = {"method": q["method"], "plural": q["plural"],
           "name": from_wire(q["name"]) if q["method"] != "POST" else g.get_path(from_wire(q["body"]), "metadata", "name"),
           "nsArg": from_wire(q["nsArg"]), "version": q["version"]}
    if q["method"] in ("POST", "PATCH"):
        out["identity"] = g.identity_of(from_wire(q["body"]))
    return out


# ------------------------------------------------------------------ several functions in one process

VERSIONS = ("verif.test/v1", "verif.test/v2", "verif.test/v1beta1", "other.test/v1", "other.test/v2")
_fresh = [0]


def fresh_prefix() -> str:
    """kr8s classes (and whatever prepare memoises about them) live as long as the process: every session /
    concurrent group gets kinds nobody has used yet, so that a case means the same in any process"""
    _fresh[0] += 1
    return f"C6k{_fresh[0]}x{os.getpid() % 1000}"


def with_prefix(progs: list, prefix: str) -> list:
    out = copy.deepcopy(progs)
    for i, p in enumerate(out):
        p["prefix"] = prefix
        p["suffix"] = f"-{i}"
    return out


ODD_NAMES = (" obj", "obj\n", "obj ", "web\n", 7, 7.5, "7", "12", -3, "obj\tb")
ODD_NAMESPACES = (" ns1", "ns1\n", "prod ", 12, "12")


def repeat_case(r) -> dict:
    """ONE prepared function reconciled 2-3 times with different inputs: name / namespace come from the inputs,
    directly or through `locals` (so that the apiConfig expression itself reads no input)"""
    namespaced = r.random() < 0.7
    prog = {"namespaced": namespaced, "tmplForm": r.choice(("inline", "inline", "ref")), "edits": [], "benign": [],
            "flags": {"owned": r.random() < 0.7}, "nameVia": r.choice((True, "locals", "locals")),
            "nsVia": r.choice((True, "locals")) if namespaced else False}
    for layer in g.LAYERS:
        if r.random() < 0.15:
            prog["edits"].append({"layer": layer, "kind": r.choice(KINDS), "via": r.random() < 0.4})
    pool = list(NAMES) + [x for x in ODD_NAMES if r.random() < 0.3]
    rounds = []
    for name in r.sample(pool, r.choice((2, 2, 3))):
        rd = {"name": name, "present": r.random() < 0.5}
        if namespaced:
            rd["apiNs"] = r.choice(NAMESPACES + tuple(x for x in ODD_NAMESPACES if r.random() < 0.2))
        rounds.append(rd)
    return {"repeat": prog, "rounds": rounds}


def run_repeat(case: dict) -> list:
    base = with_prefix([case["repeat"]], fresh_prefix())[0]
    progs = []
    for i, rd in enumerate(case["rounds"]):
        p = copy.deepcopy(base)
        p["name"] = rd["name"]
        if "apiNs" in rd:
            p["apiNs"] = rd["apiNs"]
        p["stored"] = live_object_for(p, i) if rd.get("present") else None
        progs.append(p)
    return list(zip(progs, g.reconcile_rounds(progs)))


def repeat_bad(case: dict, runs: list | None = None):
    for n, (q, b) in enumerate(runs if runs is not None else run_repeat(case)):
        bad = oracle(q, b)
        if bad:
            return (f"reconcile #{n + 1} of one prepared function (inputs name={q['name']!r}, "
                    f"namespace={q.get('apiNs')!r}): {bad}")
    return None


def shrink_repeat(case: dict) -> dict:
    small = copy.deepcopy(case)
    i = 0
    while len(small["rounds"]) > 1 and i < len(small["rounds"]):
        trial = copy.deepcopy(small)
        del trial["rounds"][i]
        if repeat_bad(trial):
            small = trial
        else:
            i += 1
    for k, v in (("edits", []), ("tmplForm", "inline"), ("flags", {"owned": True})):
        trial = copy.deepcopy(small)
        trial["repeat"][k] = v
        if trial != small and repeat_bad(trial):
            small = trial
    for rd in small["rounds"]:
        if rd.get("present"):
            trial = copy.deepcopy(small)
            trial["rounds"][small["rounds"].index(rd)]["present"] = False
            if repeat_bad(trial):
                rd["present"] = False
    return small


def session_case(r) -> dict:
    """2-3 functions for the SAME kind that differ in apiVersion (group and/or version), prepared and reconciled
    one after the other in one process — as during a CRD version migration"""
    namespaced = r.random() < 0.7
    versions = r.sample(VERSIONS, r.choice((2, 2, 3)))
    progs = []
    for v in versions:
        p = {"namespaced": namespaced, "tmplForm": r.choice(("inline", "inline", "ref")), "apiVersion": v,
             "edits": [], "benign": [l for l in g.LAYERS[1:] if r.random() < 0.2], "flags": {"owned": r.random() < 0.7}}
        for layer in g.LAYERS:
            if r.random() < 0.3:
                p["edits"].append({"layer": layer, "kind": r.choice(KINDS), "via": r.random() < 0.4})
        progs.append(p)
    return {"session": progs}


def function_test_case(r) -> dict:
    """one function; between its prepare and its reconcile koreo's own FunctionTest runner tests it (same process,
    same kind) — with a currentResource that spells metadata.namespace out or leaves it to the function"""
    namespaced = r.random() < 0.8
    p = {"namespaced": namespaced, "tmplForm": "inline", "edits": [], "benign": [l for l in ("ov0",) if r.random() < 0.3],
         "flags": {"owned": r.random() < 0.7}, "nameVia": r.random() < 0.5, "nsVia": namespaced and r.random() < 0.5,
         "functionTest": {"namespace": r.random() < 0.4, "currentResource": r.random() < 0.85,
                          "order": r.choice(("between", "between", "test-first-reprepare", "test-first-another"))}}
    for layer in g.LAYERS:
        if r.random() < 0.2:
            p["edits"].append({"layer": layer, "kind": r.choice(KINDS), "via": r.random() < 0.4})
    return {"session": [p]}


def run_session(case: dict) -> list:
    """[(prog as run, build+obs)] — every function against an empty cluster and then a drifted live object"""
    progs = with_prefix(case["session"], fresh_prefix())
    per_pass = any(p.get("functionTest") for p in progs)
    out = []
    for first in (True, False):
        if per_pass and not first:
            # a FunctionTest session is one sequence (prepare -> test -> reconcile, or test -> (re-)prepare ->
            # reconcile); the update-path pass starts it afresh with a kind of its own
            progs = with_prefix(case["session"], fresh_prefix())
        for i, p in enumerate(progs):
            q = copy.deepcopy(p)
            q["stored"] = None if first else live_object_for(q, i)
            out.append((q, g.run_program(q)))
    return out


def live_object_for(prog: dict, shape: int) -> dict:
    obj = live_object(prog, shape)
    obj["kind"] = g.kind_for(prog["prefix"], prog["namespaced"])[0]
    return obj


def session_bad(case: dict):
    for q, b in run_session(case):
        bad = oracle(q, b)
        if bad:
            order = (q.get("functionTest") or {}).get("order", "between")
            what = {"between": "a FunctionTest of it ran between its prepare and this reconcile",
                    "test-first-reprepare": "re-prepared after a FunctionTest of its kind ran in the process",
                    "test-first-another": "prepared after a FunctionTest of its kind ran in the process"}[order] \
                if q.get("functionTest") else q.get("apiVersion")
            return f"function {q['suffix']} ({what}): {bad}"
    return None


def shrink_session(case: dict) -> dict:
    small = copy.deepcopy(case)
    i = 0
    while i < len(small["session"]) and len(small["session"]) > 1:
        trial = {"session": small["session"][:i] + small["session"][i + 1:]}
        if session_bad(trial):
            small = trial
        else:
            i += 1
    for p in small["session"]:
        for k, v in (("edits", []), ("benign", []), ("tmplForm", "inline"), ("nameVia", False), ("nsVia", False),
                     ("flags", {"owned": True})):
            if p.get(k) != v:
                trial = copy.deepcopy(small)
                trial["session"][small["session"].index(p)][k] = v
                if session_bad(trial):
                    p[k] = v
    return small


# ------------------------------------------------------------------ same kind, different declarations

def declared_case(r) -> dict:
    """2-3 functions for the SAME apiVersion and kind whose apiConfig declares a different `namespaced` and/or
    `plural` — all prepared (in every order over the runs), but only those reconciled whose declaration is the one
    the kind was first registered with (the others are somebody's mistake; preparing them must not disturb anyone)"""
    namespaced = r.random() < 0.7
    n = r.choice((2, 2, 3))
    progs = []
    for i in range(n):
        p = {"namespaced": namespaced, "tmplForm": "inline", "edits": [], "benign": [],
             "flags": {"owned": r.random() < 0.7}, "name": NAMES[i], "present": r.random() < 0.5}
        if i > 0 or r.random() < 0.3:
            how = r.choice(("scope", "plural", "both", "same"))
            if how in ("scope", "both"):
                p["declNamespaced"] = not namespaced
            if how in ("plural", "both"):
                p["declPlural"] = "otherplurals"
        for layer in g.LAYERS:
            if r.random() < 0.15:
                p["edits"].append({"layer": layer, "kind": r.choice(KINDS), "via": r.random() < 0.4})
        progs.append(p)
    order = list(range(n))
    r.shuffle(order)
    return {"declared": progs, "order": order}


def run_declared(case: dict) -> list:
    """[(prog as run, build+obs)] for the functions whose declaration equals the first prepared one's"""
    progs = with_prefix([case["declared"][i] for i in case["order"]], fresh_prefix())
    decl = [(p.get("declNamespaced", p["namespaced"]), p.get("declPlural")) for p in progs]
    first = decl[0]
    for p, d in zip(progs, decl):
        p["namespaced"] = first[0]          # the kind is what its FIRST registration in the process says …
        if first[1]:
            p["regPlural"] = first[1]
        p["declNamespaced"] = d[0]          # … whatever this function declares
        if d[0] and not first[0]:
            p["apiNs"] = g.NS               # (declaring a namespaced kind needs a namespace to get prepared at all)
    which = [i for i, d in enumerate(decl) if d == first]
    for i, p in enumerate(progs):
        p["stored"] = live_object_for(p, i) if p.get("present") else None
    builds = g.prepare_all_reconcile_some(progs, which)
    return [(progs[i], b) for i, b in zip(which, builds)]


def declared_bad(case: dict, runs: list | None = None):
    for q, b in (runs if runs is not None else run_declared(case)):
        bad = oracle(q, b)
        if bad:
            others = [p for p in case["declared"] if "declNamespaced" in p or "declPlural" in p]
            return (f"function for {b['name']!r} (another function of the kind, declaring "
                    f"{[{k: p[k] for k in ('declNamespaced', 'declPlural') if k in p} for p in others]}, was prepared "
                    f"in the same process): {bad}")
    return None


def shrink_declared(case: dict) -> dict:
    small = copy.deepcopy(case)
    i = 0
    while len(small["declared"]) > 2 and i < len(small["declared"]):
        trial = copy.deepcopy(small)
        del trial["declared"][i]
        trial["order"] = [k for k in range(len(trial["declared"]))]
        for perm in itertools.permutations(range(len(trial["declared"]))):
            t2 = dict(trial, order=list(perm))
            if declared_bad(t2):
                small = t2
                break
        else:
            i += 1
    for j in range(len(small["declared"])):
        for k, v in (("edits", []), ("flags", {"owned": True}), ("present", False)):
            trial = copy.deepcopy(small)
            trial["declared"][j][k] = v
            if trial != small and declared_bad(trial):
                small = trial
    return small


# ------------------------------------------------------------------ several reconciles in flight at once

NAMES = ("obj-a", "obj-b", "obj-c")
NAMESPACES = ("ns1", "team-a", "team-b")


def concurrent_case(r) -> dict:
    """2-3 reconciles of the same kind (different names / namespaces), started together; every API call really
    suspends (positive latency under the virtual-time loop), so the reconciles interleave at each call"""
    namespaced = r.random() < 0.75
    n = r.choice((2, 2, 3))
    same_spec = r.random() < 0.4      # one function, different inputs  /  different functions of the kind
    edits0 = [{"layer": l, "kind": r.choice(KINDS), "via": r.random() < 0.4} for l in g.LAYERS if r.random() < 0.25]
    progs = []
    for i in range(n):
        p = {"namespaced": namespaced, "tmplForm": "inline", "name": NAMES[i], "flags": {"owned": r.random() < 0.7},
             "edits": copy.deepcopy(edits0) if same_spec else
             [{"layer": l, "kind": r.choice(KINDS), "via": r.random() < 0.4} for l in g.LAYERS if r.random() < 0.25],
             "benign": [], "nameVia": same_spec or r.random() < 0.3, "nsVia": same_spec or r.random() < 0.3,
             "present": r.random() < 0.5}
        if namespaced:
            p["apiNs"] = NAMESPACES[i] if r.random() < 0.7 else NAMESPACES[0]
        progs.append(p)
    return {"concurrent": progs, "latencies": [r.choice((0.5, 1, 1.5, 2, 3)) for _ in range(r.choice((3, 5, 7)))]}


def run_concurrent_case(case: dict) -> dict:
    progs = with_prefix(case["concurrent"], fresh_prefix())
    for i, p in enumerate(progs):
        p["stored"] = live_object_for(p, i) if p.get("present") else None
    out = g.run_concurrent(progs, case["latencies"])
    out["progs"] = progs
    return out


def concurrent_bad(case: dict, out: dict | None = None):
    """every request must carry the identity of the reconcile it belongs to (model-free): a PATCH/DELETE is
    attributed by its URL, the POSTs must be exactly one per absent object with that object's identity"""
    out = out or run_concurrent_case(case)
    if not out["prepared"]:
        return None
    progs, builds = out["progs"], out["builds"]
    entries = g.log_view(out["cluster"])
    for res, p, b in zip(out["results"], progs, builds):
        if res["raised"]:
            return f"reconcile of {b['name']} raised {res['raised']}"
        bad = oracle_on(p, b, [], res["resource_id"])
        if bad:
            return f"reconcile of {b['name']}: {bad}"
    owners = {(b["name"], b["ns"] if p["namespaced"] else None): (p, b) for p, b in zip(progs, builds)}
    posted = []
    for e in entries:
        if e["method"] == "POST":
            body_id = g.identity_of(e["body"])
            key = (body_id["name"], e["nsArg"])
            posted.append(key)
        else:
            key = (e["name"], e["nsArg"] if e["method"] != "GET" or progs[0]["namespaced"] else None)
        if key not in owners:
            return f"{e['method']} for ({key[0]!r}, {key[1]!r}), which none of the reconciles in flight manages"
        p, b = owners[key]
        bad = oracle_on(p, b, [e], None)
        if bad:
            return f"while {len(progs)} reconciles were in flight, the one for {b['name']!r}: {bad}"
    want_posts = sorted((b["name"], b["ns"] if p["namespaced"] else None) for p, b in zip(progs, builds) if p["stored"] is None)
    if sorted(posted, key=str) != sorted(want_posts, key=str):
        return f"objects created {sorted(posted, key=str)}, absent objects to create {want_posts}"
    return None


def shrink_concurrent(case: dict) -> dict:
    small = copy.deepcopy(case)
    i = 0
    while i < len(small["concurrent"]) and len(small["concurrent"]) > 2:
        trial = copy.deepcopy(small)
        del trial["concurrent"][i]
        if concurrent_bad(trial):
            small = trial
        else:
            i += 1
    for j in range(len(small["concurrent"])):
        for k, v in (("edits", []), ("nameVia", False), ("nsVia", False)):
            trial = copy.deepcopy(small)
            trial["concurrent"][j][k] = v
            if trial != small and concurrent_bad(trial):
                small = trial
    trial = copy.deepcopy(small)
    trial["latencies"] = [1]
    if concurrent_bad(trial):
        small = trial
    return small


def shrink(prog: dict, bad_of) -> dict:
    """fewest edits (then no optional dimension) on which the oracle still complains"""
    def with_edits(edits, base=prog):
        p = copy.deepcopy(base)
        p["edits"] = list(edits)
        return p

    def fails(edits):
        return bad_of(with_edits(edits)) is not None

    small = with_edits(ddmin(prog["edits"], fails) if prog["edits"] else [])
    for k in ("skip", "noskip", "benign", "nameVia", "nsVia", "ownerNs"):
        if k in small:
            trial = copy.deepcopy(small)
            del trial[k]
            try:
                if bad_of(trial) is not None:
                    small = trial
            except Exception:
                pass
    return small



# --------------------------------------------------------------------------- key conversion and the pin after it (F18)

FOLD_BYTES = {k: __import__("base64").b64decode(k) for k in ("name", "kind", "metadata", "AAAA", "a2V5")}
# raw bytes whose base64 text is an identity key (or a harmless one)


def gen_cval(r, depth=0, top=False):
    """-> (wire for the model, the celtypes value)"""
    import base64
    from celpy import celtypes
    import celpy

    if not top and (depth >= 3 or r.random() < 0.45):
        v = r.choice(["obj", "evil-name", "ns1", 3, True, None, ["a", 1], "", {"x": "y"}])
        return {"plain": common_to_wire(v)}, celpy.json_to_cel(v)
    entries, cel = [], celtypes.MapType()
    n = r.randrange(1 if top else 0, 6)
    for _ in range(n):
        cw, cv = gen_cval(r, depth + 1)
        if r.random() < 0.35:
            b64 = r.choice(list(FOLD_BYTES))
            key = celtypes.BytesType(FOLD_BYTES[b64])
            assert base64.b64encode(FOLD_BYTES[b64]).decode() == b64
            kw = {"b": b64}
        else:
            k = r.choice(["name", "namespace", "kind", "metadata", "apiVersion", "labels", "spec", "AAAA", "a2V5"])
            key = celtypes.StringType(k)
            kw = {"t": k}
        if key in cel:
            continue
        if top and r.random() < 0.5 and kw.get("t", kw.get("b")) != "metadata":
            pass
        cel[key] = cv
        entries.append([kw, cw])
    if top and r.random() < 0.7 and celtypes.StringType("metadata") not in cel:
        cw, cv = gen_cval(r, 1, top=True)
        cel[celtypes.StringType("metadata")] = cv
        entries.append([{"t": "metadata"}, cw])
    return {"map": entries}, cel


def common_to_wire(v):
    from common import to_wire
    return to_wire(v)


def explore_conversion(ck: Check, drv: LeanDriver, r, n: int):
    """`convert_bools` + `_pin_identity` of the tree under test against `Identity.convert` / `pinIdentity`, and the
    property clause on the implementation: whatever the keys were, the pinned object carries the identity"""
    from koreo.cel.encoder import convert_bools
    from koreo.resource_function import reconcile as rec

    pin = getattr(rec, "_pin_identity", None)
    cases = []
    for _ in range(n):
        w, cel = gen_cval(r, top=True)
        ns = r.choice(["ns1", "ns1", None])
        cases.append((w, cel, ns))
    reqs = [{"op": "convertPin", "c": w, "ver": "verif.test/v1", "kind": "Thing", "name": "obj", "ns": ns} for w, _, ns in cases]
    answers = drv.ask(reqs)
    klass = type("Thing", (), {"version": "verif.test/v1", "kind": "Thing"})
    for (w, cel, ns), ans in zip(cases, answers):
        ck.evaluated()
        ck.count("convert:case")
        case = {"type": "convert", "c": w, "ns": ns}
        try:
            converted = convert_bools(cel)
            shown = copy.deepcopy(converted)
            pinned = None
            if pin is not None:
                pinned = pin(converted, rec._forced_overlay(klass, "obj", ns))
        except Exception as e:
            ck.disagree(case, ans, repr(e), "convert_bools/_pin_identity raised")
            continue
        folded = json.dumps(w).count('"b"')
        if folded:
            ck.count("convert:with-bytes-keys")
            ck.nontriv(json.dumps(w))
        if "error" in ans:
            ck.disagree(case, ans, None, "driver-error")
            continue
        if g.dumps(from_wire(ans["converted"])) != g.dumps(shown):
            ck.disagree(case, from_wire(ans["converted"]), shown, "Identity.convert-vs-convert_bools")
        if pinned is None:
            ck.count("convert:no-pin-helper")
            continue
        if g.dumps(from_wire(ans["pinned"])) != g.dumps(pinned):
            ck.disagree(case, from_wire(ans["pinned"]), pinned, "Identity.pinIdentity-vs-_pin_identity")
        ident = g.identity_of(pinned)
        want = {"apiVersion": "verif.test/v1", "kind": "Thing", "name": "obj"}
        got = {k: ident.get(k) for k in want}
        if ns is not None:
            want["namespace"], got["namespace"] = ns, ident.get("namespace")
        if got != want:
            ck.violate(case, f"after conversion and pin the object carries {got}, apiConfig evaluates to {want}")


def run(tier: str) -> int:
    ck = Check("C06", tier)
    ck.trusted = [
        "Lean 4.33.0 kernel; axioms of every theorem ⊆ {propext, Classical.choice, Quot.sound}",
        "models lean/Koreo/Identity.lean (`_deep_overlay`, `_forced_overlay`, kr8s addressing) and lean/Koreo/ResourceFn.lean "
        "(materialise / createPayload / patchPayload / reconcile) hand-transcribed; overlay steps are arbitrary functions "
        "in the theorems and `_overlay_applier` on evaluated leaves in the correspondence",
        "kr8s 0.20.7 APIObject: constructor writes the namespace argument into raw.metadata.namespace, `raw` re-imposes "
        "kind/apiVersion, POST to endpoint, PATCH/DELETE to endpoint/name (modelled, validated by this differential)",
        "harness/cluster.py (in-memory API, request log), celpy (expressions only feed values into layers)",
    ]
    ck.assumptions = [
        "apiConfig evaluates to a non-empty name and, for namespaced kinds, a non-empty namespace (otherwise PermFail "
        "before any API access)",
        "the server answers a GET for (namespace, name) with the object of that name",
        "cluster-scoped kinds without a namespace in apiConfig: metadata.namespace of the body is not constrained "
        "(DESIGN.md section 7)",
    ]
    ck.prove(extractors=["RfDefaults"])
    if tier == "thorough":
        ck.leanchecker()

    # ---- corpus: minimised past failures first; every one must pass now
    cdir = VERIF / "corpus" / "C06"
    for f in (sorted(cdir.glob("*.json")) if cdir.is_dir() else []):
        for v in json.loads(f.read_text()).get("violations", []):
            case = v["case"]
            ck.evaluated()
            ck.count(f"corpus:{f.name}")
            bad = session_bad(case) if "session" in case else concurrent_bad(case) if "concurrent" in case else \
                declared_bad(case) if "declared" in case else repeat_bad(case) if "repeat" in case else \
                oracle(case["prog"], g.run_program(case["prog"]))
            if bad:
                ck.violate(case, bad)

    r = rng("c06")
    progs = list(grid(full=(tier != "quick")))
    n_random = 300 if tier == "quick" else 5000
    progs += [random_program(r) for _ in range(n_random)]
    progs += list(template_combos()) + list(empty_namespace_grid())
    work = []
    for i, p in enumerate(progs):
        for situation in ("absent", "drifted"):
            q = copy.deepcopy(p)
            q["stored"] = None if situation == "absent" else live_object(q, i)
            work.append(q)
    built = [g.run_program(p) for p in work]
    drv = LeanDriver("C06")
    try:
        answers = drv.ask([b["model"] for b in built])
    except Exception as e:
        answers = [None] * len(built)
        ck.notes.append(f"model driver unavailable: {e}")
        ck.build_ok = False

    def bad_of(p):
        return oracle(p, g.run_program(p))

    for prog, b, ans in zip(work, built, answers):
        ck.evaluated()
        obs = b["obs"]
        req = g.impl_request(obs) if obs["prepared"] else None
        act = g.action_of(obs["cluster"]) if obs["prepared"] else "not-prepared"
        ck.count(f"action:{act}")
        ck.count(f"layers-edited:{len({e['layer'] for e in prog['edits']})}")
        for e in prog["edits"]:
            ck.count(f"edit:{e['kind']}")
            ck.count(f"layer:{e['layer']}")
        ck.count("scope:" + ("namespaced" if prog["namespaced"] else "cluster"))
        ck.count(f"template:{prog['tmplForm']}")
        if obs["raised"]:
            ck.count("raised")
        if "nsEmpty" in prog:
            ck.count(f"namespace-evaluates-to:{prog['nsEmpty']!r}")
        if prog["edits"] and act in ("create", "patch"):
            ck.nontriv(g.dumps([prog["edits"], prog["namespaced"], prog["tmplForm"], act]))
        case = {"prog": prog}
        if len(ck.cov["samples"]) < 4 and len(prog["edits"]) >= 2 and act in ("create", "patch"):
            ck.sample({"prog": prog, "spec": b["spec"], "templates": b["templates"], "valueFunctions": b["vfs"],
                       "inputs": b["inputs"], "request": request_obs(req)})
        bad = oracle(prog, b)
        if bad:
            if len(ck.violations) < 5:
                small = shrink(prog, bad_of)
                ck.violate({"prog": small}, bad_of(small) or bad)
            elif len(ck.violations) < 40:
                ck.violate({"prog": prog}, bad)
            else:
                ck.count("further-violations")
        if ans is None or "error" in ans:
            if ans is not None:
                ck.disagree(case, ans, None, "driver-error")
            continue
        if not obs["prepared"]:
            ck.disagree(case, "prepared", obs["prepare"], "program does not prepare")
            continue
        want = model_request(ans, b, prog)
        if want == "skip":
            ck.count("comparator-raised")
            continue
        mine = request_obs(req)
        if obs["raised"] and want is None:
            continue
        if want != mine or obs["raised"]:
            ck.disagree(case, want, {"request": mine, "raised": obs["raised"]},
                        "request: method/endpoint/name/namespace-argument/body-identity")
    # ---- several functions of one kind in one process (same kind, different apiVersion)
    n_sessions = 60 if tier == "quick" else 600
    n_ftests = 60 if tier == "quick" else 600
    for k in range(n_sessions + n_ftests):
        case = session_case(r) if k < n_sessions else function_test_case(r)
        if k >= n_sessions:
            ft = case["session"][0]["functionTest"]
            ck.count(f"function-test:{ft['order']}:currentResource " +
                     ("with" if ft["namespace"] else "without") + " namespace")
        runs = run_session(case)
        try:
            s_answers = drv.ask([b["model"] for _, b in runs])
        except Exception:
            s_answers = [None] * len(runs)
        reported = False
        for (q, b), ans in zip(runs, s_answers):
            ck.evaluated()
            ck.count("session-run:" + q.get("apiVersion", g.API_VERSION))
            if obs.get("function_test") is not None:
                ck.count("function-test-ran:" + str(obs["function_test"].get("prepared")))
            obs = b["obs"]
            req = g.impl_request(obs) if obs["prepared"] else None
            if isinstance(req, dict) and req["method"] in ("POST", "PATCH"):
                ck.nontriv(g.dumps(["session", [p.get("apiVersion") for p in case["session"]], q["suffix"], q["edits"],
                                    q.get("functionTest"), req["method"]]))
            bad = oracle(q, b)
            if bad and not reported:
                reported = True
                if len(ck.violations) < 5:
                    small = shrink_session(case)
                    ck.violate(small, session_bad(small) or bad)
                elif len(ck.violations) < 40:
                    ck.violate(case, bad)
            if ans is None or "error" in ans or not obs["prepared"]:
                if ans is not None:
                    ck.disagree({"session": case["session"], "function": q["suffix"]}, ans.get("error"),
                                obs.get("prepare"), "session: driver error / not prepared")
                continue
            want = model_request(ans, b, q)
            if want == "skip" or (obs["raised"] and want is None):
                continue
            mine = request_obs(req)
            if want != mine or obs["raised"]:
                ck.disagree({"session": case["session"], "function": q["suffix"], "stored": q["stored"] is not None},
                            want, {"request": mine, "raised": obs["raised"]},
                            "session request: method/endpoint/version/name/namespace-argument/body-identity")
    ck.cov["sessions"] = n_sessions

    # ---- one prepared function reconciled several times with different inputs
    n_repeat = 70 if tier == "quick" else 700
    for _ in range(n_repeat):
        case = repeat_case(r)
        runs = run_repeat(case)
        ck.count(f"repeated-reconciles:{len(runs)} name via {case['repeat']['nameVia']}")
        try:
            r_answers = drv.ask([b["model"] for _, b in runs])
        except Exception:
            r_answers = [None] * len(runs)
        bad = repeat_bad(case, runs)
        if bad:
            if len(ck.violations) < 5:
                small = shrink_repeat(case)
                ck.violate(small, repeat_bad(small) or bad)
            elif len(ck.violations) < 40:
                ck.violate(case, bad)
        for (q, b), ans in zip(runs, r_answers):
            ck.evaluated()
            obs = b["obs"]
            req = g.impl_request(obs) if obs["prepared"] else None
            if isinstance(req, dict) and req["method"] in ("POST", "PATCH"):
                ck.nontriv(g.dumps(["repeat", case["repeat"], q["name"], q.get("apiNs"), req["method"]]))
            if ans is None or "error" in ans or not obs["prepared"]:
                continue
            want = model_request(ans, b, q)
            if want == "skip" or (obs["raised"] and want is None):
                continue
            mine = request_obs(req)
            if want != mine or obs["raised"]:
                ck.disagree(case, want, {"request": mine, "raised": obs["raised"]},
                            "one function, several inputs: method/endpoint/version/name/namespace-argument/body-identity")
    ck.cov["repeat_sessions"] = n_repeat

    # ---- several functions of the same apiVersion/kind that declare a different scope / plural
    n_declared = 80 if tier == "quick" else 800
    for _ in range(n_declared):
        case = declared_case(r)
        runs = run_declared(case)
        ck.count(f"declared-differently:prepared {len(case['declared'])}, reconciled {len(runs)}")
        try:
            d_answers = drv.ask([b["model"] for _, b in runs])
        except Exception:
            d_answers = [None] * len(runs)
        bad = declared_bad(case, runs)
        if bad:
            if len(ck.violations) < 5:
                small = shrink_declared(case)
                ck.violate(small, declared_bad(small) or bad)
            elif len(ck.violations) < 40:
                ck.violate(case, bad)
        for (q, b), ans in zip(runs, d_answers):
            ck.evaluated()
            obs = b["obs"]
            req = g.impl_request(obs) if obs["prepared"] else None
            if isinstance(req, dict) and req["method"] in ("POST", "PATCH"):
                ck.nontriv(g.dumps(["declared", case, q["suffix"], req["method"]]))
            if ans is None or "error" in ans or not obs["prepared"]:
                continue
            want = model_request(ans, b, q)
            if want == "skip" or (obs["raised"] and want is None):
                continue
            mine = request_obs(req)
            if want != mine or obs["raised"]:
                ck.disagree(case, want, {"request": mine, "raised": obs["raised"]},
                            "same kind declared differently: method/endpoint/version/name/namespace-argument/body-identity")
    ck.cov["declared_sessions"] = n_declared

    # ---- several reconciles of one kind in flight at once
    n_groups = 150 if tier == "quick" else 2000
    for _ in range(n_groups):
        case = concurrent_case(r)
        out = run_concurrent_case(case)
        ck.evaluated(len(case["concurrent"]))
        ck.count(f"concurrent-group-size:{len(case['concurrent'])}")
        if not out["prepared"]:
            ck.disagree(case, "prepared", out.get("prepare"), "concurrent group does not prepare")
            continue
        entries = g.log_view(out["cluster"])
        muts = [e for e in entries if e["method"] != "GET"]
        order = "".join(e["method"][0] for e in entries)
        ck.count("concurrent-interleaved" if "GG" in order else "concurrent-sequential")
        if muts:
            ck.nontriv(g.dumps(["concurrent", case["concurrent"], order]))
        if len(ck.cov["samples"]) < 6 and "GG" in order and len(muts) >= 2:
            ck.sample({"concurrent": case["concurrent"], "latencies": case["latencies"], "call order": order,
                       "requests": [request_obs(e) for e in muts]})
        bad = concurrent_bad(case, out)
        if bad:
            if len(ck.violations) < 5:
                small = shrink_concurrent(case)
                ck.violate(small, concurrent_bad(small) or bad)
            elif len(ck.violations) < 40:
                ck.violate(case, bad)
        # correspondence: the model has no shared state, so the requests in flight together are exactly the
        # requests of the same reconciles taken one by one
        try:
            c_answers = drv.ask([b["model"] for b in out["builds"]])
        except Exception:
            continue
        want_all, skip = [], False
        for p, b, ans in zip(out["progs"], out["builds"], c_answers):
            if "error" in ans:
                skip = True
                break
            w = model_request(ans, b, p)
            if w == "skip":
                skip = True
                break
            if w is not None:
                want_all.append(w)
        if skip or any(res["raised"] for res in out["results"]):
            if any(res["raised"] for res in out["results"]) and not skip:
                ck.disagree(case, want_all, [res["raised"] for res in out["results"]], "concurrent: a reconcile raised")
            continue
        mine_all = [request_obs(e) for e in muts]
        if sorted(map(g.dumps, want_all)) != sorted(map(g.dumps, mine_all)):
            ck.disagree(case, want_all, mine_all, "concurrent: the requests in flight together vs one by one")
    ck.cov["concurrent_groups"] = n_groups

    try:
        explore_conversion(ck, drv, rng("c06-convert"), 400 if tier == "quick" else 5000)
    except ImportError as e:
        ck.notes.append(f"key-conversion stream not run: {e}")

    ck.cov["programs"] = len(work)
    ck.cov["grid"] = {"layer_subsets": 32, "replacement_kinds": len(KINDS), "full": tier != "quick"}
    return ck.finish(
        rule="adversarial ResourceFunctions: all 32 subsets of the layers {template, overlay, overlay, overlayRef "
             "function, create.overlay} x 9 replacement kinds (apiVersion/kind strings or non-strings, metadata.name, "
             "metadata.namespace, metadata := string | int | list | null | computed map); quick rotates scope / template "
             "form / literal-vs-input over the grid, thorough takes all 8 combinations; plus random programs (several "
             "edits per layer, skipIf, apiConfig through inputs, other names/namespaces, policies); each against an "
             "empty cluster and a drifted live object; plus sessions of 2-3 functions for the SAME kind but different "
             "apiVersion (group and/or version) prepared and reconciled one after the other in one process (request "
             "`version=`, body apiVersion and the reported resource id must be each function's own); plus functions that "
             "koreo's own FunctionTest runner tests (real prepare_function_test / run_function_test, currentResource with "
             "or without metadata.namespace) between their prepare and their reconcile, or BEFORE the function is "
             "re-prepared / another function of the kind is prepared (garbage collector held off so that whatever the "
             "test runner registered with kr8s is alive exactly then); plus 2-3 functions of the SAME apiVersion/kind "
             "whose apiConfig declares a different `namespaced` / `plural`, all prepared in a random order and only those "
             "reconciled that declare what the kind was first registered with; plus ONE prepared function reconciled 2-3 "
             "times with different inputs (name / namespace from inputs directly or through `locals`); names and "
             "namespaces with leading / trailing blanks and newlines, numbers and numeral strings (kept / written out "
             "exactly as evaluated); plus groups of 2-3 "
             "reconciles of one kind (different names / namespaces, one function with different inputs or different "
             "functions) in flight together under the virtual-time loop with every API call suspending — every request "
             "must carry the identity of its own reconcile; non-trivial = a POST or PATCH was sent by a program with an "
             "adversarial edit / in a session / in a concurrent group; distinct by edits+scope+template form+action",
    )


def replay(path: str) -> int:
    data = json.load(open(path))
    rc = 0
    for v in data.get("violations", []):
        case = v["case"]
        if "session" in case:
            bad = session_bad(case)
            print("replay (functions prepared one after the other):", json.dumps(case), "::", bad)
        elif "concurrent" in case:
            bad = concurrent_bad(case)
            print("replay (reconciles in flight together):", json.dumps(case), "::", bad)
        elif "declared" in case:
            bad = declared_bad(case)
            print("replay (functions of one kind declaring different scope/plural):", json.dumps(case), "::", bad)
        elif "repeat" in case:
            bad = repeat_bad(case)
            print("replay (one prepared function, several inputs):", json.dumps(case), "::", bad)
        else:
            prog = case["prog"]
            b = g.run_program(prog)
            bad = oracle(prog, b)
            print("replay:", json.dumps(prog), "->", json.dumps([request_obs(g.impl_request(b["obs"]))], default=str), "::", bad)
        rc = rc or (1 if bad else 0)
    for d in data.get("no_longer_checks", []):
        if d.get("kind") == "correspondence" and isinstance(d.get("case"), dict) and \
                ("session" in d["case"] or "concurrent" in d["case"] or "declared" in d["case"] or "repeat" in d["case"]):
            case = d["case"]
            bad = session_bad(case) if "session" in case else concurrent_bad(case) if "concurrent" in case else \
                declared_bad(case) if "declared" in case else repeat_bad(case)
            print("replay (model/implementation, several functions):", json.dumps(case)[:800], "oracle ::", bad,
                  "model ->", json.dumps(d.get("model"), default=str)[:600], "impl ->", json.dumps(d.get("impl"), default=str)[:600])
            rc = 1
        elif d.get("kind") == "correspondence" and isinstance(d.get("case"), dict) and "prog" in d["case"]:
            prog = d["case"]["prog"]
            b = g.run_program(prog)
            ans = LeanDriver("C06").ask([b["model"]])[0]
            want = model_request(ans, b, prog)
            mine = request_obs(g.impl_request(b["obs"]))
            agree = want == "skip" or (b["obs"]["raised"] and want is None) or (want == mine and not b["obs"]["raised"])
            print("replay (model/implementation):", json.dumps(prog), "impl ->", json.dumps(mine, default=str),
                  b["obs"]["raised"], "model ->", json.dumps(want, default=str), "::", "agree" if agree else "DISAGREE")
            rc = rc or (0 if agree else 1)
        elif d.get("kind") in ("lean-build", "audit"):
            print("replay: the proof side did not check:", str(d)[:600])
            rc = 1
    return rc
